package main

// CoreTyping — regenerates lean/GripGen/CoreTyping.lean from the typing switch of
// engine/core/compile.go (func StatementProcessor).  For every `case` of the type switch the body
// is *evaluated* once per concrete gdbi.DataType value of ps.LastType, interpreting only
//   comparisons of ps.LastType with gdbi.* constants, &&, ||, !, assignments to ps.LastType /
//   ps.MarkTypes[..], `return nil, <error>` and `return <processor>, nil`;
// every other condition that guards an error return is recorded symbolically as an argument
// check (its source text).  `switch len(stmt.Select.Marks)` forks the arm into the variants
// len0 / len1 / lenMany.  Anything else that would influence the outcome is a loud failure.

import (
	"bytes"
	"fmt"
	"go/ast"
	"go/parser"
	"go/printer"
	"go/token"
	"sort"
	"strings"
)

var c01DataTypes = []string{"NoData", "VertexData", "EdgeData", "CountData", "AggregationData", "SelectionData", "RenderData", "PathData"}
var c01LeanType = map[string]string{"NoData": ".noData", "VertexData": ".vertex", "EdgeData": ".edge", "CountData": ".count",
	"AggregationData": ".aggregation", "SelectionData": ".selection", "RenderData": ".render", "PathData": ".path"}

var c01KindOf = map[string]string{
	"V": "V", "E": "E", "In": "in_", "InNull": "inNull", "Out": "out", "OutNull": "outNull", "Both": "both",
	"InE": "inE", "InENull": "inENull", "OutE": "outE", "OutENull": "outENull", "BothE": "bothE",
	"Has": "has", "HasLabel": "hasLabel", "HasKey": "hasKey", "HasId": "hasId", "Limit": "limit", "Skip": "skip",
	"Range": "range", "Count": "count", "Distinct": "distinct", "As": "as_", "Set": "set", "Increment": "increment",
	"Mark": "mark", "Jump": "jump", "Select": "select", "Render": "render", "Path": "path", "Unwind": "unwind",
	"Fields": "fields", "Aggregate": "aggregate", "LookupVertsIndex": "lookupVertsIndex", "EngineCustom": "engineCustom",
}

type c01Outcome struct {
	res      string // Lean Res term
	checks   []string
	setsMark bool
}

type c01Eval struct {
	fset *token.FileSet
	last string // concrete DataType name, or "markType"/"custom"
	out  map[string]*c01Outcome // variant -> outcome (filled on return)
	cur  c01Outcome
}

func (e *c01Eval) src(n ast.Node) string {
	var b bytes.Buffer
	printer.Fprint(&b, e.fset, n)
	return strings.Join(strings.Fields(b.String()), " ")
}

func isSel(x ast.Expr, a, b string) bool {
	s, ok := x.(*ast.SelectorExpr)
	if !ok || s.Sel.Name != b {
		return false
	}
	id, ok := s.X.(*ast.Ident)
	return ok && id.Name == a
}

// evalCond: (value, known)
func (e *c01Eval) evalCond(x ast.Expr) (bool, bool) {
	switch c := x.(type) {
	case *ast.ParenExpr:
		return e.evalCond(c.X)
	case *ast.UnaryExpr:
		if c.Op == token.NOT {
			v, ok := e.evalCond(c.X)
			return !v, ok
		}
	case *ast.BinaryExpr:
		switch c.Op {
		case token.LAND, token.LOR:
			a, oka := e.evalCond(c.X)
			b, okb := e.evalCond(c.Y)
			if oka && okb {
				if c.Op == token.LAND {
					return a && b, true
				}
				return a || b, true
			}
			return false, false
		case token.EQL, token.NEQ:
			var k ast.Expr
			if isSel(c.X, "ps", "LastType") {
				k = c.Y
			} else if isSel(c.Y, "ps", "LastType") {
				k = c.X
			} else {
				return false, false
			}
			s, ok := k.(*ast.SelectorExpr)
			if !ok {
				return false, false
			}
			if id, ok := s.X.(*ast.Ident); !ok || id.Name != "gdbi" {
				return false, false
			}
			if _, ok := c01LeanType[e.last]; !ok {
				return false, false // symbolic last type compared: not interpretable
			}
			eq := s.Sel.Name == e.last
			if c.Op == token.NEQ {
				eq = !eq
			}
			return eq, true
		}
	}
	return false, false
}

func returnsError(body *ast.BlockStmt) bool {
	if len(body.List) == 0 {
		return false
	}
	r, ok := body.List[len(body.List)-1].(*ast.ReturnStmt)
	if !ok || len(r.Results) != 2 {
		return false
	}
	id, ok := r.Results[0].(*ast.Ident)
	return ok && id.Name == "nil"
}

func (e *c01Eval) touchesTyping(body *ast.BlockStmt) bool {
	found := false
	ast.Inspect(body, func(n ast.Node) bool {
		switch x := n.(type) {
		case *ast.ReturnStmt:
			found = true
		case *ast.AssignStmt:
			for _, l := range x.Lhs {
				if strings.HasPrefix(e.src(l), "ps.") {
					found = true
				}
			}
		case *ast.CallExpr:
			if strings.HasPrefix(e.src(x.Fun), "ps.Set") {
				found = true
			}
		}
		return true
	})
	return found
}

// block evaluates statements; returns true when a return was executed.
func (e *c01Eval) block(stmts []ast.Stmt, variant string) (bool, error) {
	for _, st := range stmts {
		switch s := st.(type) {
		case *ast.ReturnStmt:
			res := ""
			if len(s.Results) == 2 {
				if id, ok := s.Results[0].(*ast.Ident); ok && id.Name == "nil" {
					res = ".err"
				}
			}
			if res == "" {
				switch e.last {
				case "markType":
					res = ".markType"
				case "custom":
					res = ".custom"
				default:
					res = "(.ty " + c01LeanType[e.last] + ")"
				}
			}
			o := e.cur
			o.res = res
			o.checks = append([]string{}, e.cur.checks...)
			if _, dup := e.out[variant]; dup {
				return true, fmt.Errorf("variant %s returned twice", variant)
			}
			e.out[variant] = &o
			return true, nil
		case *ast.AssignStmt:
			for i, lhs := range s.Lhs {
				if isSel(lhs, "ps", "LastType") {
					if i >= len(s.Rhs) {
						return false, fmt.Errorf("assignment shape: %s", e.src(s))
					}
					rhs := s.Rhs[i]
					if sel, ok := rhs.(*ast.SelectorExpr); ok {
						if id, ok := sel.X.(*ast.Ident); ok && id.Name == "gdbi" {
							if _, known := c01LeanType[sel.Sel.Name]; !known {
								return false, fmt.Errorf("unknown data type %s", sel.Sel.Name)
							}
							e.last = sel.Sel.Name
							continue
						}
					}
					txt := e.src(rhs)
					switch {
					case strings.HasPrefix(txt, "ps.MarkTypes["):
						e.last = "markType"
					case txt == "proc.GetType()":
						e.last = "custom"
					default:
						return false, fmt.Errorf("cannot interpret assignment to ps.LastType: %s", txt)
					}
				} else if ix, ok := lhs.(*ast.IndexExpr); ok && isSel(ix.X, "ps", "MarkTypes") {
					if len(s.Rhs) != 1 || !isSel(s.Rhs[0], "ps", "LastType") {
						return false, fmt.Errorf("cannot interpret mark type assignment: %s", e.src(s))
					}
					e.cur.setsMark = true
				} else if strings.HasPrefix(e.src(lhs), "ps.") {
					return false, fmt.Errorf("assignment to pipeline state not understood: %s", e.src(s))
				}
			}
		case *ast.IfStmt:
			v, known := e.evalCond(s.Cond)
			if known && s.Init == nil {
				if v {
					ret, err := e.block(s.Body.List, variant)
					if err != nil || ret {
						return ret, err
					}
				} else if s.Else != nil {
					var ret bool
					var err error
					switch el := s.Else.(type) {
					case *ast.BlockStmt:
						ret, err = e.block(el.List, variant)
					case *ast.IfStmt:
						ret, err = e.block([]ast.Stmt{el}, variant)
					}
					if err != nil || ret {
						return ret, err
					}
				}
				continue
			}
			// not a condition on the last type: either irrelevant to typing (no return, no write to
			// the pipeline state) or a guard of an error return, recorded symbolically
			if s.Else == nil && !e.touchesTyping(s.Body) {
				continue
			}
			if !returnsError(s.Body) || s.Else != nil {
				return false, fmt.Errorf("condition not interpretable and not a plain error guard: %s", e.src(s.Cond))
			}
			txt := e.src(s.Cond)
			if s.Init != nil {
				txt = e.src(s.Init) + "; " + txt
			}
			e.cur.checks = append(e.cur.checks, txt)
		case *ast.SwitchStmt:
			if s.Tag == nil || !strings.HasPrefix(e.src(s.Tag), "len(") {
				return false, fmt.Errorf("switch not understood: %s", e.src(s.Tag))
			}
			if variant != "plain" {
				return false, fmt.Errorf("nested length switch")
			}
			seen := map[string]bool{}
			for _, c := range s.Body.List {
				cc := c.(*ast.CaseClause)
				v := ""
				if cc.List == nil {
					v = "lenMany"
				} else if len(cc.List) == 1 && e.src(cc.List[0]) == "0" {
					v = "len0"
				} else if len(cc.List) == 1 && e.src(cc.List[0]) == "1" {
					v = "len1"
				} else {
					return false, fmt.Errorf("length switch case not understood: %s", e.src(cc))
				}
				seen[v] = true
				sub := &c01Eval{fset: e.fset, last: e.last, out: e.out, cur: c01Outcome{checks: append([]string{}, e.cur.checks...), setsMark: e.cur.setsMark}}
				ret, err := sub.block(cc.Body, v)
				if err != nil {
					return false, err
				}
				if !ret {
					return false, fmt.Errorf("length switch case %s does not return", v)
				}
			}
			if !seen["len0"] || !seen["len1"] || !seen["lenMany"] {
				return false, fmt.Errorf("length switch does not have cases 0, 1, default")
			}
			return true, nil
		case *ast.RangeStmt:
			texts := []string{}
			assigned := false // the loop records something in a map (`m[k] = v`)
			for _, b := range s.Body.List {
				if as, ok := b.(*ast.AssignStmt); ok {
					for _, l := range as.Lhs {
						if _, ok := l.(*ast.IndexExpr); ok {
							assigned = true
						}
					}
				}
				ifs, ok := b.(*ast.IfStmt)
				if !ok {
					continue
				}
				if returnsError(ifs.Body) {
					txt := e.src(ifs.Cond)
					if ifs.Init != nil {
						txt = e.src(ifs.Init) + "; " + txt
					}
					texts = append(texts, txt)
				}
			}
			switch {
			case assigned && len(texts) == 2 && texts[0] == "_, ok := aggs[a.Name]; ok" && texts[1] == "a.GetAggregation() == nil":
				// the loop over the aggregations as it is today: a name seen before is an error, an
				// aggregation without a type is an error, the name is recorded
				e.cur.checks = append(e.cur.checks, "aggregations: names recorded, no type rejected")
			case !assigned:
				for _, t := range texts {
					e.cur.checks = append(e.cur.checks, "range: "+t)
				}
			default:
				for _, t := range texts {
					e.cur.checks = append(e.cur.checks, "range (map filled): "+t)
				}
			}
		case *ast.ExprStmt, *ast.DeclStmt:
			// no influence on typing
		default:
			return false, fmt.Errorf("statement not understood: %s", e.src(st))
		}
	}
	return false, nil
}

func c01Check(txt string) string {
	switch txt {
	case "len(labels) == 0", "len(keys) == 0", "len(ids) == 0":
		return ".emptyList"
	case `stmt.As == ""`:
		return ".emptyName"
	case "err := gripql.ValidateFieldName(stmt.As); err != nil":
		return ".invalidName"
	case "stmt.As == jsonpath.Current":
		return ".reservedName"
	case "range: _, ok := aggs[a.Name]; ok":
		return ".deadLoop"
	case "aggregations: names recorded, no type rejected":
		return ".aggNames"
	}
	return ".unrecognised"
}

func genCoreTyping(x *Ctx) (string, interface{}, error) {
	src, err := x.Read("engine/core/compile.go")
	if err != nil {
		return "", nil, err
	}
	fset := token.NewFileSet()
	f, err := parser.ParseFile(fset, "compile.go", src, 0)
	if err != nil {
		return "", nil, err
	}
	var sw *ast.TypeSwitchStmt
	for _, d := range f.Decls {
		fd, ok := d.(*ast.FuncDecl)
		if !ok || fd.Name.Name != "StatementProcessor" {
			continue
		}
		for _, st := range fd.Body.List {
			if ts, ok := st.(*ast.TypeSwitchStmt); ok {
				sw = ts
			}
		}
	}
	if sw == nil {
		return "", nil, fmt.Errorf("type switch of StatementProcessor not found")
	}
	type entry struct {
		kind, variant string
		res           []string
		checks        []string
		rawChecks     []string
		setsMark      bool
	}
	entries := []entry{}
	seenKinds := map[string]bool{}
	for _, c := range sw.Body.List {
		cc := c.(*ast.CaseClause)
		kinds := []string{}
		if cc.List == nil {
			kinds = append(kinds, "unknown")
		}
		for _, t := range cc.List {
			var b bytes.Buffer
			printer.Fprint(&b, fset, t)
			name := strings.TrimPrefix(b.String(), "*gripql.GraphStatement_")
			k, ok := c01KindOf[name]
			if !ok {
				return "", nil, fmt.Errorf("case %s: no statement kind known for it", b.String())
			}
			kinds = append(kinds, k)
		}
		// evaluate the body once per concrete last type
		perVariant := map[string]*entry{}
		for ti, T := range c01DataTypes {
			ev := &c01Eval{fset: fset, last: T, out: map[string]*c01Outcome{}}
			ret, err := ev.block(cc.Body, "plain")
			if err != nil {
				return "", nil, fmt.Errorf("case %v, last type %s: %v", kinds, T, err)
			}
			if !ret {
				return "", nil, fmt.Errorf("case %v, last type %s: body does not return", kinds, T)
			}
			// a type error before a length switch: the same outcome for all variants
			if o, ok := ev.out["plain"]; ok && ti >= 0 {
				_ = o
			}
			for v, o := range ev.out {
				en := perVariant[v]
				if en == nil {
					en = &entry{variant: v, res: make([]string, len(c01DataTypes))}
					perVariant[v] = en
				}
				en.res[ti] = o.res
				for _, ch := range o.checks {
					found := false
					for _, old := range en.rawChecks {
						if old == ch {
							found = true
						}
					}
					if !found {
						en.rawChecks = append(en.rawChecks, ch)
					}
				}
				en.setsMark = en.setsMark || o.setsMark
			}
		}
		// an arm with a length switch: fill the variants' gaps with the plain (early) outcome
		if len(perVariant) > 1 {
			plain := perVariant["plain"]
			delete(perVariant, "plain")
			for _, en := range perVariant {
				for i := range en.res {
					if en.res[i] == "" {
						if plain == nil || plain.res[i] == "" {
							return "", nil, fmt.Errorf("case %v: no outcome for last type %s", kinds, c01DataTypes[i])
						}
						en.res[i] = plain.res[i]
					}
				}
			}
		}
		vs := []string{}
		for v := range perVariant {
			vs = append(vs, v)
		}
		sort.Strings(vs)
		for _, k := range kinds {
			if seenKinds[k] {
				return "", nil, fmt.Errorf("statement kind %s has two cases", k)
			}
			seenKinds[k] = true
			for _, v := range vs {
				en := *perVariant[v]
				for i, r := range en.res {
					if r == "" {
						return "", nil, fmt.Errorf("case %s/%s: no outcome for last type %s", k, v, c01DataTypes[i])
					}
				}
				en.kind = k
				en.checks = nil
				for _, ch := range en.rawChecks {
					en.checks = append(en.checks, c01Check(ch))
				}
				entries = append(entries, en)
			}
		}
	}
	var b strings.Builder
	b.WriteString("-- GENERATED by tools/extract/c01_typing.go from engine/core/compile.go (StatementProcessor); do not edit\n")
	b.WriteString("import Grip.Model.Typing\nnamespace GripGen.CoreTyping\nopen Grip\n\n")
	b.WriteString("/-- per `case` of the typing switch (and variant of `switch len(..)`): outcome for each last type\n    in the order of `DataType.all`, argument checks guarding an error, whether a mark type is recorded. -/\n")
	b.WriteString("def table : TypingTable := [\n")
	facts := []interface{}{}
	for i, en := range entries {
		sep := ","
		if i == len(entries)-1 {
			sep = ""
		}
		fmt.Fprintf(&b, "  { kind := .%s, variant := .%s, res := [%s], checks := [%s], setsMark := %v }%s\n",
			en.kind, en.variant, strings.Join(en.res, ", "), strings.Join(en.checks, ", "), en.setsMark, sep)
		facts = append(facts, map[string]interface{}{"kind": en.kind, "variant": en.variant, "res": en.res, "checks": en.rawChecks, "setsMark": en.setsMark})
	}
	b.WriteString("]\n\n/-- the source text of the argument checks, for the record -/\ndef checkTexts : List (String × List String) := [\n")
	for i, en := range entries {
		sep := ","
		if i == len(entries)-1 {
			sep = ""
		}
		fmt.Fprintf(&b, "  (%s, %s)%s\n", leanStr(en.kind+"/"+en.variant), leanStrList(en.rawChecks), sep)
	}
	b.WriteString("]\n\nend GripGen.CoreTyping\n")
	return b.String(), facts, nil
}

func init() { register(Table{Name: "CoreTyping", Gen: genCoreTyping}) }
