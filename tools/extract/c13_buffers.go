package main

// C13Buffers — the constants of the stream combinators that the C13 theorems are instantiated
// with, read from the Go source with go/ast: channel capacities, the distributor's wrap test, the
// merge loop's start index, the worker counts at the call sites, runMux's index expression, the
// batcher's final flush, the queue's pop end.  A shape that is no longer recognisable is an error
// (the table is then replaced by `extractionFailed` and every C13 theorem that imports it breaks).

import (
	"fmt"
	"go/ast"
	"go/parser"
	"go/token"
	"strconv"
	"strings"
)

func init() { register(Table{Name: "C13Buffers", Gen: genC13Buffers}) }

func c13Parse(x *Ctx, rel string) (*ast.File, error) {
	src, err := x.Read(rel)
	if err != nil {
		return nil, err
	}
	return parser.ParseFile(token.NewFileSet(), rel, src, 0)
}

func c13Func(f *ast.File, name string) *ast.FuncDecl {
	for _, d := range f.Decls {
		if fd, ok := d.(*ast.FuncDecl); ok && fd.Name.Name == name && fd.Body != nil {
			return fd
		}
	}
	return nil
}

func c13Int(e ast.Expr) (int, bool) {
	if b, ok := e.(*ast.BasicLit); ok && b.Kind == token.INT {
		n, err := strconv.Atoi(b.Value)
		return n, err == nil
	}
	return 0, false
}

func c13Ident(e ast.Expr, name string) bool {
	id, ok := e.(*ast.Ident)
	return ok && id.Name == name
}

// c13ChanCaps lists the capacity expressions of every make(chan …, cap) below n.
func c13ChanCaps(n ast.Node) []ast.Expr {
	var out []ast.Expr
	ast.Inspect(n, func(m ast.Node) bool {
		if c, ok := m.(*ast.CallExpr); ok && c13Ident(c.Fun, "make") && len(c.Args) == 2 {
			if _, isChan := c.Args[0].(*ast.ChanType); isChan {
				out = append(out, c.Args[1])
			}
		}
		return true
	})
	return out
}

func c13AllEqualLits(es []ast.Expr, what string) (int, error) {
	v := -1
	for _, e := range es {
		n, ok := c13Int(e)
		if !ok {
			continue
		}
		if v >= 0 && n != v {
			return 0, fmt.Errorf("%s: channel capacities differ (%d vs %d)", what, v, n)
		}
		v = n
	}
	if v < 0 {
		return 0, fmt.Errorf("%s: no literal channel capacity found", what)
	}
	return v, nil
}

type c13Ser struct {
	chanCap, outPer, mergeStart int
	resetGe                     bool
}

func c13Serializer(fd *ast.FuncDecl) (c13Ser, error) {
	var r c13Ser
	name := fd.Name.Name
	caps := c13ChanCaps(fd)
	var err error
	if r.chanCap, err = c13AllEqualLits(caps, name); err != nil {
		return r, err
	}
	r.outPer = -1
	for _, e := range caps {
		if b, ok := e.(*ast.BinaryExpr); ok && b.Op == token.MUL && c13Ident(b.X, "nworkers") {
			if n, ok := c13Int(b.Y); ok {
				r.outPer = n
			}
		}
	}
	if r.outPer < 0 {
		return r, fmt.Errorf("%s: make(chan …, nworkers*N) not found", name)
	}
	// the distributor's wrap test: if n >= nworkers { n = 0 }
	found := 0
	ast.Inspect(fd, func(m ast.Node) bool {
		is, ok := m.(*ast.IfStmt)
		if !ok {
			return true
		}
		b, ok := is.Cond.(*ast.BinaryExpr)
		if !ok || !c13Ident(b.X, "n") || !c13Ident(b.Y, "nworkers") {
			return true
		}
		if len(is.Body.List) != 1 {
			return true
		}
		as, ok := is.Body.List[0].(*ast.AssignStmt)
		if !ok || len(as.Lhs) != 1 || !c13Ident(as.Lhs[0], "n") {
			return true
		}
		if z, ok := c13Int(as.Rhs[0]); !ok || z != 0 {
			return true
		}
		switch b.Op {
		case token.GEQ:
			r.resetGe = true
			found++
		case token.GTR:
			r.resetGe = false
			found++
		default:
			found += 100
		}
		return true
	})
	if found != 1 {
		return r, fmt.Errorf("%s: wrap test `if n >= nworkers { n = 0 }` not recognised (%d candidates)", name, found)
	}
	// the merge loop: for i := START; i < nworkers; i++ { … <-fromWorkers[i] … }
	loops := 0
	ast.Inspect(fd, func(m ast.Node) bool {
		fs, ok := m.(*ast.ForStmt)
		if !ok || fs.Init == nil {
			return true
		}
		as, ok := fs.Init.(*ast.AssignStmt)
		if !ok || len(as.Lhs) != 1 || len(as.Rhs) != 1 {
			return true
		}
		iv, ok := as.Lhs[0].(*ast.Ident)
		if !ok {
			return true
		}
		recv := false
		ast.Inspect(fs.Body, func(k ast.Node) bool {
			if u, ok := k.(*ast.UnaryExpr); ok && u.Op == token.ARROW {
				if ix, ok := u.X.(*ast.IndexExpr); ok && c13Ident(ix.X, "fromWorkers") && c13Ident(ix.Index, iv.Name) {
					recv = true
				}
			}
			return true
		})
		if !recv {
			return true
		}
		cond, ok := fs.Cond.(*ast.BinaryExpr)
		if !ok || cond.Op != token.LSS || !c13Ident(cond.X, iv.Name) || !c13Ident(cond.Y, "nworkers") {
			loops += 100
			return true
		}
		st, ok := c13Int(as.Rhs[0])
		if !ok {
			loops += 100
			return true
		}
		r.mergeStart = st
		loops++
		return true
	})
	if loops != 1 {
		return r, fmt.Errorf("%s: merge loop `for i := 0; i < nworkers; i++ { <-fromWorkers[i] }` not recognised (%d)", name, loops)
	}
	return r, nil
}

func genC13Buffers(x *Ctx) (string, interface{}, error) {
	ser, err := c13Parse(x, "jobstorage/serializer.go")
	if err != nil {
		return "", nil, err
	}
	mfd, ufd := c13Func(ser, "MarshalStream"), c13Func(ser, "UnmarshalStream")
	if mfd == nil || ufd == nil {
		return "", nil, fmt.Errorf("MarshalStream/UnmarshalStream not found")
	}
	ms, err := c13Serializer(mfd)
	if err != nil {
		return "", nil, err
	}
	us, err := c13Serializer(ufd)
	if err != nil {
		return "", nil, err
	}
	if ms.chanCap != us.chanCap || ms.outPer != us.outPer {
		return "", nil, fmt.Errorf("serializer: MarshalStream and UnmarshalStream use different capacities")
	}

	// worker counts at the call sites
	stg, err := c13Parse(x, "jobstorage/storage.go")
	if err != nil {
		return "", nil, err
	}
	var workers []string
	var werr error
	ast.Inspect(stg, func(m ast.Node) bool {
		c, ok := m.(*ast.CallExpr)
		if !ok {
			return true
		}
		id, ok := c.Fun.(*ast.Ident)
		if !ok || (id.Name != "MarshalStream" && id.Name != "UnmarshalStream") || len(c.Args) != 2 {
			return true
		}
		n, ok := c13Int(c.Args[1])
		if !ok {
			werr = fmt.Errorf("storage.go: worker count of %s is not an integer literal", id.Name)
			return true
		}
		workers = append(workers, strconv.Itoa(n))
		return true
	})
	if werr != nil {
		return "", nil, werr
	}
	if len(workers) == 0 {
		return "", nil, fmt.Errorf("storage.go: no MarshalStream/UnmarshalStream call found")
	}

	// channel mux
	mux, err := c13Parse(x, "gripper/channel_mux.go")
	if err != nil {
		return "", nil, err
	}
	queueSize := -1
	for _, d := range mux.Decls {
		if gd, ok := d.(*ast.GenDecl); ok && gd.Tok == token.VAR {
			for _, sp := range gd.Specs {
				vs := sp.(*ast.ValueSpec)
				for i, nm := range vs.Names {
					if nm.Name == "QueueSize" && i < len(vs.Values) {
						if n, ok := c13Int(vs.Values[i]); ok {
							queueSize = n
						}
					}
				}
			}
		}
	}
	if queueSize < 0 {
		return "", nil, fmt.Errorf("channel_mux.go: var QueueSize = N not found")
	}
	rm := c13Func(mux, "runMux")
	if rm == nil {
		return "", nil, fmt.Errorf("channel_mux.go: runMux not found")
	}
	idxIsOrder, idxSeen := false, 0
	ast.Inspect(rm, func(m ast.Node) bool {
		rs, ok := m.(*ast.RangeStmt)
		if !ok {
			return true
		}
		sel, ok := rs.X.(*ast.SelectorExpr)
		if !ok || sel.Sel.Name != "messageOrder" {
			return true
		}
		key, _ := rs.Key.(*ast.Ident)
		ast.Inspect(rs.Body, func(k ast.Node) bool {
			if u, ok := k.(*ast.UnaryExpr); ok && u.Op == token.ARROW {
				if ix, ok := u.X.(*ast.IndexExpr); ok {
					if s2, ok := ix.X.(*ast.SelectorExpr); ok && s2.Sel.Name == "outputs" {
						idxSeen++
						idxIsOrder = key != nil && c13Ident(ix.Index, key.Name)
					}
				}
			}
			return true
		})
		return true
	})
	if idxSeen != 1 {
		return "", nil, fmt.Errorf("channel_mux.go: `for n := range m.messageOrder { <-m.outputs[n] }` not recognised (%d)", idxSeen)
	}

	// processor.go
	proc, err := c13Parse(x, "gdbi/processor.go")
	if err != nil {
		return "", nil, err
	}
	procCap, err := c13AllEqualLits(c13ChanCaps(proc), "gdbi/processor.go")
	if err != nil {
		return "", nil, err
	}
	lb := c13Func(proc, "LookupBatcher")
	if lb == nil {
		return "", nil, fmt.Errorf("processor.go: LookupBatcher not found")
	}
	finalFlush, loopSeen := false, false
	ast.Inspect(lb, func(m ast.Node) bool {
		fl, ok := m.(*ast.FuncLit)
		if !ok {
			return true
		}
		after := false
		for _, st := range fl.Body.List {
			if _, ok := st.(*ast.ForStmt); ok {
				after, loopSeen = true, true
				continue
			}
			if is, ok := st.(*ast.IfStmt); ok && after {
				b, ok := is.Cond.(*ast.BinaryExpr)
				if !ok || b.Op != token.GTR {
					continue
				}
				if c, ok := b.X.(*ast.CallExpr); !ok || !c13Ident(c.Fun, "len") || len(c.Args) != 1 || !c13Ident(c.Args[0], "o") {
					continue
				}
				if z, ok := c13Int(b.Y); !ok || z != 0 {
					continue
				}
				for _, bs := range is.Body.List {
					if ss, ok := bs.(*ast.SendStmt); ok && c13Ident(ss.Chan, "out") && c13Ident(ss.Value, "o") {
						finalFlush = true
					}
				}
			}
		}
		return false
	})
	if !loopSeen {
		return "", nil, fmt.Errorf("processor.go: LookupBatcher's goroutine loop not recognised")
	}

	// engine/queue
	qf, err := c13Parse(x, "engine/queue/queue.go")
	if err != nil {
		return "", nil, err
	}
	qCap, err := c13AllEqualLits(c13ChanCaps(qf), "engine/queue/queue.go")
	if err != nil {
		return "", nil, err
	}
	popHeadRead, popHeadSlice, popOther := false, false, 0
	ast.Inspect(qf, func(m ast.Node) bool {
		as, ok := m.(*ast.AssignStmt)
		if !ok || len(as.Lhs) != 1 || len(as.Rhs) != 1 {
			return true
		}
		if c13Ident(as.Lhs[0], "v") {
			if ix, ok := as.Rhs[0].(*ast.IndexExpr); ok && c13Ident(ix.X, "queue") {
				if z, ok := c13Int(ix.Index); ok && z == 0 {
					popHeadRead = true
				} else {
					popOther++
				}
			}
		}
		if c13Ident(as.Lhs[0], "queue") && as.Tok == token.ASSIGN {
			if sl, ok := as.Rhs[0].(*ast.SliceExpr); ok && c13Ident(sl.X, "queue") {
				if lo, ok := c13Int(sl.Low); ok && lo == 1 && sl.High == nil {
					popHeadSlice = true
				} else {
					popOther++
				}
			}
		}
		return true
	})
	if !(popHeadRead && popHeadSlice) && popOther == 0 {
		return "", nil, fmt.Errorf("queue.go: pop statements `v = queue[0]; queue = queue[1:]` not recognised")
	}
	popsHead := popHeadRead && popHeadSlice && popOther == 0

	b := func(v bool) string {
		if v {
			return "true"
		}
		return "false"
	}
	var sb strings.Builder
	sb.WriteString("-- GENERATED by tools/extract (c13_buffers.go) from jobstorage/serializer.go, jobstorage/storage.go,\n")
	sb.WriteString("-- gripper/channel_mux.go, gdbi/processor.go, engine/queue/queue.go; do not edit\n")
	sb.WriteString("namespace GripGen.C13Buffers\n")
	fmt.Fprintf(&sb, "def serWorkerChanCap : Nat := %d\n", ms.chanCap)
	fmt.Fprintf(&sb, "def serOutCapPerWorker : Nat := %d\n", ms.outPer)
	fmt.Fprintf(&sb, "def marshalResetGe : Bool := %s\n", b(ms.resetGe))
	fmt.Fprintf(&sb, "def unmarshalResetGe : Bool := %s\n", b(us.resetGe))
	fmt.Fprintf(&sb, "def marshalMergeStart : Nat := %d\n", ms.mergeStart)
	fmt.Fprintf(&sb, "def unmarshalMergeStart : Nat := %d\n", us.mergeStart)
	fmt.Fprintf(&sb, "def jobWorkers : List Nat := [%s]\n", strings.Join(workers, ", "))
	fmt.Fprintf(&sb, "def muxQueueSize : Nat := %d\n", queueSize)
	fmt.Fprintf(&sb, "def muxOutputIndexIsOrder : Bool := %s\n", b(idxIsOrder))
	fmt.Fprintf(&sb, "def procChanCap : Nat := %d\n", procCap)
	fmt.Fprintf(&sb, "def batcherFinalFlush : Bool := %s\n", b(finalFlush))
	fmt.Fprintf(&sb, "def queueChanCap : Nat := %d\n", qCap)
	fmt.Fprintf(&sb, "def queuePopsHead : Bool := %s\n", b(popsHead))
	sb.WriteString("end GripGen.C13Buffers\n")
	facts := map[string]interface{}{
		"serWorkerChanCap": ms.chanCap, "serOutCapPerWorker": ms.outPer,
		"marshalResetGe": ms.resetGe, "unmarshalResetGe": us.resetGe,
		"marshalMergeStart": ms.mergeStart, "unmarshalMergeStart": us.mergeStart,
		"jobWorkers": workers, "muxQueueSize": queueSize, "muxOutputIndexIsOrder": idxIsOrder,
		"procChanCap": procCap, "batcherFinalFlush": finalFlush, "queueChanCap": qCap, "queuePopsHead": popsHead,
	}
	return sb.String(), facts, nil
}
