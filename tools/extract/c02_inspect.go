package main

// InspectTables (C02) — the case lists of the load-elision analysis, read from the Go source
// with go/ast:
//   * engine/inspect/inspect.go  PipelineSteps: which statement kinds start a new step, which are
//     known and stay in the step;
//   * PipelineStepOutputs: the arms of its switch, each classified by the (normalised) text of its
//     body into count / select / lookup / hasLabel / readsCur, and the trailing loop over
//     statementFields;
//   * statementFields: the statement kinds it returns field references for, and from where;
//   * engine/pipeline/state.go  StepLoadData: the shape of its body;
//   * engine/core/optimize.go: the shape facts the optimizer model relies on (dedupe calls, the
//     namespace guard, the conditions extractHasVals reads).
// A body whose text is not one of the recognised shapes is an extraction failure (loud), never a
// silent default.

import (
	"bytes"
	"fmt"
	"go/ast"
	"go/parser"
	"go/printer"
	"go/token"
	"sort"
	"strings"
)

func init() { register(Table{Name: "InspectTables", Gen: genC02Inspect}) }

func c02Src(fset *token.FileSet, n ast.Node) string {
	var b bytes.Buffer
	printer.Fprint(&b, fset, n)
	return strings.Join(strings.Fields(b.String()), " ")
}

func c02ParseFile(x *Ctx, rel string) (*token.FileSet, *ast.File, error) {
	src, err := x.Read(rel)
	if err != nil {
		return nil, nil, err
	}
	fset := token.NewFileSet()
	f, err := parser.ParseFile(fset, rel, src, 0) // comments dropped
	return fset, f, err
}

func c02FuncDecl(f *ast.File, name string) *ast.FuncDecl {
	for _, d := range f.Decls {
		if fd, ok := d.(*ast.FuncDecl); ok && fd.Name.Name == name && fd.Body != nil {
			return fd
		}
	}
	return nil
}

// c02TypeSwitches returns the type switches directly below n (not nested ones).
func c02TypeSwitches(n ast.Node) []*ast.TypeSwitchStmt {
	var out []*ast.TypeSwitchStmt
	ast.Inspect(n, func(m ast.Node) bool {
		if ts, ok := m.(*ast.TypeSwitchStmt); ok {
			out = append(out, ts)
			return false
		}
		return true
	})
	return out
}

// c02CaseKinds maps the `*gripql.GraphStatement_X` types of a case clause to Lean Kind names.
func c02CaseKinds(fset *token.FileSet, cc *ast.CaseClause) ([]string, error) {
	kinds := []string{}
	for _, t := range cc.List {
		txt := c02Src(fset, t)
		const pfx = "*gripql.GraphStatement_"
		if !strings.HasPrefix(txt, pfx) {
			return nil, fmt.Errorf("case type %q is not a *gripql.GraphStatement_X", txt)
		}
		k, ok := c01KindOf[strings.TrimPrefix(txt, pfx)]
		if !ok {
			return nil, fmt.Errorf("case type %q: no statement kind known for it", txt)
		}
		kinds = append(kinds, k)
	}
	return kinds, nil
}

func c02Body(fset *token.FileSet, stmts []ast.Stmt) string {
	parts := []string{}
	for _, s := range stmts {
		parts = append(parts, c02Src(fset, s))
	}
	return strings.Join(parts, " ; ")
}

// recognised bodies of the PipelineStepOutputs arms
var c02ArmShapes = map[string]string{
	`onLast = false`: "count",
	`for _, s := range gs.GetSelect().Marks { for _, a := range markSteps[s] { out[a] = []string{"*"} } } ; onLast = false`:          "select",
	`if onLast { out[steps[i]] = []string{"*"} } ; onLast = false`:                                                                   "lookup",
	`if x, ok := out[steps[i]]; ok { out[steps[i]] = append(x, "_label") } else { out[steps[i]] = []string{"_label"} }`:                "hasLabel",
	`out[steps[i]] = []string{"*"}`: "readsCur",
}

const c02RefsLoop = `for _, f := range statementFields(gs) { n := jsonpath.GetNamespace(f) if n == jsonpath.Current { out[steps[i]] = []string{"*"} } for _, a := range markSteps[n] { out[a] = []string{"*"} } }`

const c02LoadDataBody = `{ if x, ok := ps.StepOutputs[ps.CurStep]; ok { if len(x) == 1 && x[0] == "_label" { return false } return true } return false }`

// recognised return expressions of statementFields (where the references come from)
var c02RefSources = map[string]string{
	`return hasExpressionFields(stmt.Has)`:                    "hasKeys",
	`return protoutil.AsStringList(stmt.HasKey)`:              "list",
	`return protoutil.AsStringList(stmt.Distinct)`:            "list",
	`return templateFields(stmt.Render.AsInterface())`:        "template",
	`return []string{stmt.Unwind}`:                            "single",
	`return hasExpressionFields(stmt.Jump.GetExpression())`:   "hasKeys",
}

func leanKinds(ks []string) string {
	q := make([]string, len(ks))
	for i, k := range ks {
		q[i] = "Kind." + k
	}
	return "[" + strings.Join(q, ", ") + "]"
}

func genC02Inspect(x *Ctx) (string, interface{}, error) {
	fset, f, err := c02ParseFile(x, "engine/inspect/inspect.go")
	if err != nil {
		return "", nil, err
	}
	facts := map[string]interface{}{}

	// --- PipelineSteps
	ps := c02FuncDecl(f, "PipelineSteps")
	if ps == nil {
		return "", nil, fmt.Errorf("PipelineSteps not found")
	}
	sw := c02TypeSwitches(ps.Body)
	if len(sw) != 1 {
		return "", nil, fmt.Errorf("PipelineSteps: expected one type switch, found %d", len(sw))
	}
	starters, keepers := []string{}, []string{}
	for _, c := range sw[0].Body.List {
		cc := c.(*ast.CaseClause)
		if cc.List == nil {
			continue // default: unknown statement, logged
		}
		kinds, err := c02CaseKinds(fset, cc)
		if err != nil {
			return "", nil, fmt.Errorf("PipelineSteps: %v", err)
		}
		body := c02Body(fset, cc.Body)
		switch body {
		case "curState++":
			starters = append(starters, kinds...)
		case "":
			keepers = append(keepers, kinds...)
		default:
			return "", nil, fmt.Errorf("PipelineSteps: unrecognised case body %q", body)
		}
	}
	// the value appended per statement must be the decimal rendering of curState
	if !strings.Contains(c02Src(fset, ps.Body), `out = append(out, fmt.Sprintf("%d", curState))`) {
		return "", nil, fmt.Errorf("PipelineSteps: the step id is no longer fmt.Sprintf(\"%%d\", curState)")
	}

	// --- PipelineStepOutputs
	po := c02FuncDecl(f, "PipelineStepOutputs")
	if po == nil {
		return "", nil, fmt.Errorf("PipelineStepOutputs not found")
	}
	var loop *ast.ForStmt
	for _, s := range po.Body.List {
		if fs, ok := s.(*ast.ForStmt); ok {
			loop = fs
		}
	}
	if loop == nil {
		return "", nil, fmt.Errorf("PipelineStepOutputs: backward loop not found")
	}
	hdr := c02Src(fset, loop.Init) + " ; " + c02Src(fset, loop.Cond) + " ; " + c02Src(fset, loop.Post)
	if hdr != "i := len(stmts) - 1 ; i >= 0 ; i--" {
		return "", nil, fmt.Errorf("PipelineStepOutputs: loop header %q is not the backward scan", hdr)
	}
	pre := c02Body(fset, po.Body.List[:len(po.Body.List)-2])
	if pre != `steps := PipelineSteps(stmts) ; markSteps := pipelineMarkSteps(stmts, steps) ; onLast := true ; out := map[string][]string{}` {
		return "", nil, fmt.Errorf("PipelineStepOutputs: unrecognised preamble %q", pre)
	}
	if len(loop.Body.List) != 3 {
		return "", nil, fmt.Errorf("PipelineStepOutputs: loop body has %d statements, expected 3 (gs, switch, field-reference loop)", len(loop.Body.List))
	}
	if got := c02Src(fset, loop.Body.List[0]); got != "gs := stmts[i]" {
		return "", nil, fmt.Errorf("PipelineStepOutputs: first loop statement %q", got)
	}
	osw, ok := loop.Body.List[1].(*ast.TypeSwitchStmt)
	if !ok {
		return "", nil, fmt.Errorf("PipelineStepOutputs: second loop statement is not the type switch")
	}
	if got := c02Src(fset, loop.Body.List[2]); got != c02RefsLoop {
		return "", nil, fmt.Errorf("PipelineStepOutputs: unrecognised field-reference loop %q", got)
	}
	type arm struct{ kind, shape string }
	arms := []arm{}
	for _, c := range osw.Body.List {
		cc := c.(*ast.CaseClause)
		if cc.List == nil {
			return "", nil, fmt.Errorf("PipelineStepOutputs: unexpected default arm")
		}
		kinds, err := c02CaseKinds(fset, cc)
		if err != nil {
			return "", nil, fmt.Errorf("PipelineStepOutputs: %v", err)
		}
		body := c02Body(fset, cc.Body)
		shape, ok := c02ArmShapes[body]
		if !ok {
			return "", nil, fmt.Errorf("PipelineStepOutputs: case %v: unrecognised body %q", kinds, body)
		}
		for _, k := range kinds {
			arms = append(arms, arm{k, shape})
		}
	}

	// --- pipelineMarkSteps
	pm := c02FuncDecl(f, "pipelineMarkSteps")
	if pm == nil {
		return "", nil, fmt.Errorf("pipelineMarkSteps not found")
	}
	if got := c02Src(fset, pm.Body); got != `{ out := map[string][]string{} for i, gs := range stmts { switch stmt := gs.GetStatement().(type) { case *gripql.GraphStatement_As: if !contains(out[stmt.As], steps[i]) { out[stmt.As] = append(out[stmt.As], steps[i]) } } } return out }` {
		return "", nil, fmt.Errorf("pipelineMarkSteps: unrecognised body %q", got)
	}

	// --- statementFields
	sf := c02FuncDecl(f, "statementFields")
	if sf == nil {
		return "", nil, fmt.Errorf("statementFields not found")
	}
	fsw := c02TypeSwitches(sf.Body)
	if len(fsw) != 1 {
		return "", nil, fmt.Errorf("statementFields: expected one type switch")
	}
	type ref struct{ kind, src string }
	refs := []ref{}
	for _, c := range fsw[0].Body.List {
		cc := c.(*ast.CaseClause)
		if cc.List == nil {
			return "", nil, fmt.Errorf("statementFields: unexpected default arm")
		}
		kinds, err := c02CaseKinds(fset, cc)
		if err != nil {
			return "", nil, fmt.Errorf("statementFields: %v", err)
		}
		body := c02Body(fset, cc.Body)
		src, ok := c02RefSources[body]
		if !ok {
			if len(kinds) == 1 && kinds[0] == "aggregate" && strings.HasPrefix(body, "out := []string{} ; for _, a := range stmt.Aggregate.GetAggregations()") {
				src = "aggregate"
			} else {
				return "", nil, fmt.Errorf("statementFields: case %v: unrecognised body %q", kinds, body)
			}
		}
		for _, k := range kinds {
			refs = append(refs, ref{k, src})
		}
	}

	// --- StepLoadData
	sfset, sfile, err := c02ParseFile(x, "engine/pipeline/state.go")
	if err != nil {
		return "", nil, err
	}
	ld := c02FuncDecl(sfile, "StepLoadData")
	if ld == nil {
		return "", nil, fmt.Errorf("StepLoadData not found")
	}
	if got := c02Src(sfset, ld.Body); got != c02LoadDataBody {
		return "", nil, fmt.Errorf("StepLoadData: unrecognised body %q", got)
	}
	np := c02FuncDecl(sfile, "NewPipelineState")
	if np == nil || !strings.Contains(c02Src(sfset, np.Body), "steps := inspect.PipelineSteps(stmts) stepOut := inspect.PipelineStepOutputs(stmts)") {
		return "", nil, fmt.Errorf("NewPipelineState no longer takes Steps/StepOutputs from inspect.PipelineSteps/PipelineStepOutputs")
	}

	// --- optimize.go shape facts
	ofset, ofile, err := c02ParseFile(x, "engine/core/optimize.go")
	if err != nil {
		return "", nil, err
	}
	iso := c02FuncDecl(ofile, "IndexStartOptimize")
	ehv := c02FuncDecl(ofile, "extractHasVals")
	if iso == nil || ehv == nil {
		return "", nil, fmt.Errorf("IndexStartOptimize/extractHasVals not found")
	}
	isoTxt := c02Src(ofset, iso.Body)
	ehvTxt := c02Src(ofset, ehv.Body)
	optFacts := []struct {
		name string
		ok   bool
	}{
		{"dedupeIds", strings.Contains(isoTxt, "ids = dedupStringSlice(ids) if len(ids) > 0 {")},
		{"dedupeLabels", strings.Contains(isoTxt, "labels = dedupStringSlice(labels) if len(labels) > 0 {")},
		{"currentNamespaceOnly", strings.Contains(isoTxt, "cond != nil && jsonpath.GetNamespace(cond.Key) == jsonpath.Current {")},
		{"gidCase", strings.Contains(isoTxt, `case "$.gid": hasIDIdx = append(hasIDIdx, i) case "$.label": hasLabelIdx = append(hasLabelIdx, i)`)},
		{"labelOnlyWithoutId", strings.Contains(isoTxt, "if len(hasLabelIdx) > 0 && !idOpt {")},
		{"firstIndexUsed", strings.Contains(isoTxt, "idx := hasIDIdx[0]") && strings.Contains(isoTxt, "idx := hasLabelIdx[0]")},
		{"startIsBareV", strings.Contains(isoTxt, "if v.V != nil && len(v.V.Values) > 0 { break }")},
		{"extractEqWithinOnly", strings.Contains(ehvTxt, "switch cond.Condition { case gripql.Condition_EQ: if l, ok := val.(string); ok { vals = []string{l} } case gripql.Condition_WITHIN: v, ok := val.([]interface{}) if !ok { return []string{} } for _, x := range v { s, ok := x.(string) if !ok { return []string{} } vals = append(vals, s) } default: }")},
	}

	sort.Strings(keepers)
	var b strings.Builder
	b.WriteString("-- GENERATED by tools/extract/c02_inspect.go from engine/inspect/inspect.go, engine/pipeline/state.go,\n-- engine/core/optimize.go; do not edit\n")
	b.WriteString("import Grip.Model.Stmt\n\nnamespace GripGen.InspectTables\nopen Grip\n\n")
	b.WriteString("/-- PipelineSteps: statement kinds whose case body is `curState++`. -/\n")
	b.WriteString("def stepStarters : List Kind := " + leanKinds(starters) + "\n\n")
	b.WriteString("/-- PipelineSteps: known statement kinds that stay in the current step. -/\n")
	b.WriteString("def stepKeepers : List Kind := " + leanKinds(keepers) + "\n\n")
	b.WriteString("/-- PipelineStepOutputs: (kind, shape of its arm). -/\n")
	b.WriteString("def outArms : List (Kind × String) := [")
	for i, a := range arms {
		if i > 0 {
			b.WriteString(", ")
		}
		b.WriteString("(Kind." + a.kind + ", " + leanStr(a.shape) + ")")
	}
	b.WriteString("]\n\n")
	b.WriteString("/-- statementFields: (kind, where its field references come from). -/\n")
	b.WriteString("def fieldRefSources : List (Kind × String) := [")
	for i, r := range refs {
		if i > 0 {
			b.WriteString(", ")
		}
		b.WriteString("(Kind." + r.kind + ", " + leanStr(r.src) + ")")
	}
	b.WriteString("]\n\n")
	b.WriteString("/-- Shape facts of IndexStartOptimize / extractHasVals the optimizer MODEL relies on. -/\n")
	b.WriteString("def optimizerFacts : List (String × Bool) := [")
	for i, o := range optFacts {
		if i > 0 {
			b.WriteString(", ")
		}
		b.WriteString(fmt.Sprintf("(%s, %v)", leanStr(o.name), o.ok))
	}
	b.WriteString("]\n\nend GripGen.InspectTables\n")
	facts["stepStarters"] = starters
	facts["arms"] = len(arms)
	facts["fieldRefKinds"] = len(refs)
	return b.String(), facts, nil
}
