#!/bin/sh
# scratch worktree of /repo for a seeding agent: /tmp/seed/<ID> (branch seed-<ID>), output dir /tmp/seed/<ID>-out
set -e
ID="$1"
mkdir -p /tmp/seed "/tmp/seed/$ID-out"
git -C /repo worktree remove --force "/tmp/seed/$ID" 2>/dev/null || true
git -C /repo branch -D "seed-$ID" 2>/dev/null || true
git -C /repo worktree add -q -b "seed-$ID" "/tmp/seed/$ID" HEAD
echo "/tmp/seed/$ID"
