#!/usr/bin/env python3
"""Regenerates MANIFEST.json from props/*.json (claimed checks) and properties.jsonl (the rest -> not_applicable)."""
import json, glob, os
ROOT = os.path.dirname(os.path.dirname(os.path.abspath(__file__)))
props = [json.loads(l) for l in open(os.path.join(ROOT, "properties.jsonl")) if l.strip()]
cfgs = {}
for p in sorted(glob.glob(os.path.join(ROOT, "props", "C*.json"))):
    c = json.load(open(p))
    if c.get("manifest") and not c.get("unclaimed"):
        cfgs[c["id"]] = c
na_reasons = json.load(open(os.path.join(ROOT, "props", "not_applicable.json"))) if os.path.exists(os.path.join(ROOT, "props", "not_applicable.json")) else {}
hooks_commits = [l.strip() for l in open(os.path.join(ROOT, "props", "hook_commits.txt"))] if os.path.exists(os.path.join(ROOT, "props", "hook_commits.txt")) else []
checks = []
for pr in props:
    c = cfgs.get(pr["id"])
    if not c:
        continue
    m = c["manifest"]
    checks.append({
        "property_id": pr["id"],
        "quick_cmd": "./check %s --tier quick" % pr["id"],
        "thorough_cmd": "./check %s --tier thorough" % pr["id"],
        "evidence_file": "/verif/evidence/%s.json" % pr["id"],
        "replay_cmd_template": "./check %s --replay {path}" % pr["id"],
        "engine": "lean4+hx",
        "level_claimed": {"category": m["category"], "text": m["text"], "design_ref": m.get("design_ref", "DESIGN.md §5")},
        "level_note": m["note"],
        "technique": m["technique"],
    })
na = []
for pr in props:
    if pr["id"] not in cfgs:
        na.append({"property_id": pr["id"], "reason": na_reasons.get(pr["id"], "check not built yet in this session (Lean model and correspondence harness pending); nothing is claimed for it")})
man = {
    "version": 1,
    "setup_cmd": "./setup.sh",
    "hooks": {
        "guard": "verif",
        "enable": "go build -tags verif (the harness module go/harness replaces github.com/bmeg/grip by /repo and is always built with -tags verif)",
        "baseline_off_cmd": "cd /repo && go test -mod=mod -json -vet=off -count=1 -timeout 25m ./...",
        "source_commits": hooks_commits,
        "add_only": True,
    },
    "engines": [
        {"name": "lean4+hx", "path": "/verif/check",
         "serves_properties": [c["property_id"] for c in checks],
         "kind_free_text": "Lean 4 theorems over a functional model (lean/), translator tools/extract regenerating GripGen tables from /repo, and the Go correspondence harness go/harness (real code vs compiled Lean driver over a line protocol)"}
    ],
    "checks": checks,
    "not_applicable": na,
    "notes": "All checks: ./check <ID> --tier quick|thorough; replay: ./check <ID> --replay <file>. VERIF_SEED selects the PRNG seed. See DESIGN.md.",
}
json.dump(man, open(os.path.join(ROOT, "MANIFEST.json"), "w"), indent=1)
print("MANIFEST.json: %d checks, %d not_applicable" % (len(checks), len(na)))
